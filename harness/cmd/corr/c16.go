package main

// C16 — ordered.Unmarshal into a family of tagged struct types vs the Lean model (descriptor
// obtained by reflection, the way the library itself reads tags), plus two direct oracles:
// the key partition (every input key lands in exactly one place) and, for alias-free targets
// and well-typed input, agreement with yaml.v3's own decoder.

import (
	"encoding/json"
	"fmt"
	"reflect"
	"strings"

	"github.com/buildkite/go-pipeline/ordered"
	"gopkg.in/yaml.v3"

	"verifharness/core"
	"verifharness/vl"
)

func init() { checks["C16"] = runC16 }

// ----- the family -----

type fScalars struct {
	S          string  `yaml:"s"`
	I          int     `yaml:"i"`
	F          float64 `yaml:"f"`
	B          bool    `yaml:"b"`
	A          any     `yaml:"a"`
	Untagged   string
	Skipped    string `yaml:"-"`
	unexported int
}

type fSlices struct {
	SS []string  `yaml:"ss"`
	IS []int     `yaml:"is"`
	AS []any     `yaml:"as,omitempty"`
	FS []float64 `yaml:"fs"`
	BS []bool    `yaml:"bs"`
}

type fMaps struct {
	MS  map[string]string   `yaml:"ms"`
	MA  map[string]any      `yaml:"ma"`
	MSS map[string][]string `yaml:"mss"`
	OM  *ordered.MapSA      `yaml:"om"`
	OS  *ordered.MapSS      `yaml:"os"`
}

// ordered maps whose values are composite: each entry is decoded into its own destination
type fOMapComposite struct {
	OL *ordered.Map[string, []string]          `yaml:"ol"`
	OT *ordered.Map[string, fAliasNoInline]    `yaml:"ot"`
	OP *ordered.Map[string, *fAliasNoInline]   `yaml:"op"`
	OM *ordered.Map[string, map[string]string] `yaml:"om"`
}

type fNested struct {
	In fScalars             `yaml:"in"`
	P  *fScalars            `yaml:"p"`
	PS *string              `yaml:"ps"`
	L  []fScalars           `yaml:"l"`
	M  map[string]fNoInline `yaml:"m"`
}

type fNoInline struct {
	A string `yaml:"a"`
	B int    `yaml:"b"`
}

type fInlineMap struct {
	K    string         `yaml:"k"`
	N    int            `yaml:"n,omitempty"`
	Rest map[string]any `yaml:",inline"`
}

type fInlineOMap struct {
	K    string         `yaml:"k"`
	Rest *ordered.MapSA `yaml:",inline"`
}

type fInlineAny struct {
	K    string `yaml:"k"`
	Rest any    `yaml:",inline"`
}

type fAliases struct {
	Key   string         `yaml:"key,omitempty" aliases:"id,identifier"`
	Label string         `yaml:"label" aliases:"name"`
	Group *string        `yaml:"group" aliases:"title,caption"`
	Rest  map[string]any `yaml:",inline"`
}

type fInlineStruct struct {
	Cmds []string  `yaml:"cmds" aliases:"cmd"`
	Rem  *fAliases `yaml:",inline"`
}

// alias lists with an empty ENTRY next to real ones (`id,` / `name,,title`): the empty entry names no key — the key ""
// stays an ordinary unknown key — and the inline map makes the accounting observable
type fAliasEmptyEntry struct {
	Key   string         `yaml:"key" aliases:"id,"`
	Label string         `yaml:"label" aliases:"name,,title"`
	Rest  map[string]any `yaml:",inline"`
}

type fAliasNoInline struct {
	X string `yaml:"x" aliases:"y,,z"`
	W int    `yaml:"w" aliases:"v"`
}

type famEntry struct {
	name      string
	mk        func() any // pointer to a fresh zero value
	prefilled func() any // pointer to a pre-populated value
	aliasFree bool       // and decodable by yaml.v3 itself
}

func strp(s string) *string { return &s }

var c16Family = []famEntry{
	{"scalars", func() any { return &fScalars{} }, func() any {
		return &fScalars{S: "old", I: 7, F: 2.5, B: true, A: "olda", Untagged: "u", Skipped: "keep", unexported: 3}
	}, true},
	{"slices", func() any { return &fSlices{} }, func() any {
		return &fSlices{SS: []string{"x"}, IS: []int{1}, AS: []any{"y", 2}, FS: []float64{}, BS: nil}
	}, true},
	{"maps", func() any { return &fMaps{} }, func() any {
		return &fMaps{MS: map[string]string{"k": "v"}, MA: map[string]any{"z": 1}, OM: ordered.MapFromItems(ordered.TupleSA{Key: "pre", Value: 1}),
			OS: ordered.MapFromItems(ordered.TupleSS{Key: "pre", Value: "1"})}
	}, true},
	{"nested", func() any { return &fNested{} }, func() any {
		return &fNested{In: fScalars{S: "in"}, P: &fScalars{S: "p", I: 1}, PS: strp("ps"), L: []fScalars{{S: "l0"}}}
	}, true},
	{"noinline", func() any { return &fNoInline{} }, func() any { return &fNoInline{A: "a", B: 2} }, true},
	{"inlinemap", func() any { return &fInlineMap{} }, func() any { return &fInlineMap{K: "k", Rest: map[string]any{"old": true}} }, true},
	{"inlineomap", func() any { return &fInlineOMap{} }, func() any {
		return &fInlineOMap{K: "k", Rest: ordered.MapFromItems(ordered.TupleSA{Key: "old", Value: 1})}
	}, false},
	{"inlineany", func() any { return &fInlineAny{} }, func() any { return &fInlineAny{K: "k", Rest: "old"} }, false},
	{"aliases", func() any { return &fAliases{} }, func() any { return &fAliases{Key: "K", Label: "L", Group: strp("G")} }, false},
	{"inlinestruct", func() any { return &fInlineStruct{} }, func() any {
		return &fInlineStruct{Cmds: []string{"c0"}, Rem: &fAliases{Key: "K", Rest: map[string]any{"r": 1}}}
	}, false},
	{"aliasemptyentry", func() any { return &fAliasEmptyEntry{} }, func() any { return &fAliasEmptyEntry{Key: "K", Label: "L"} }, false},
	{"aliasnoinline", func() any { return &fAliasNoInline{} }, func() any { return &fAliasNoInline{X: "x", W: 1} }, false},
	{"omapcomposite", func() any { return &fOMapComposite{} }, func() any { return &fOMapComposite{} }, false},
	// two distinct struct types that print the same (function-local types called `step`) with different tags:
	// whatever is remembered per type must be keyed by the type, not by its name
	{"localstep1", mkLocalStep1, mkLocalStep1, true},
	{"localstep2", mkLocalStep2, mkLocalStep2, true},
}

func mkLocalStep1() any {
	type step struct {
		Name    string         `yaml:"name"`
		Command string         `yaml:"command"`
		Rest    map[string]any `yaml:",inline"`
	}
	return &step{}
}

func mkLocalStep2() any {
	type step struct {
		Label   string         `yaml:"label"`
		Command string         `yaml:"command"`
		Rest    map[string]any `yaml:",inline"`
	}
	return &step{}
}

// ----- reflective descriptor and dump (VL) -----

var (
	tMapSA = reflect.TypeOf((*ordered.MapSA)(nil))
	tMapSS = reflect.TypeOf((*ordered.MapSS)(nil))
)

// isOMapPtr: *ordered.Map[string, V] for some V (the generic ordered map); returns V.
func isOMapPtr(t reflect.Type) (reflect.Type, bool) {
	if t.Kind() != reflect.Pointer || t.Elem().Kind() != reflect.Struct || t.Elem().PkgPath() != "github.com/buildkite/go-pipeline/ordered" ||
		!strings.HasPrefix(t.Elem().Name(), "Map[string,") {
		return nil, false
	}
	rm, ok := t.MethodByName("Range")
	if !ok || rm.Type.NumIn() != 2 {
		return nil, false
	}
	return rm.Type.In(1).In(1), true // func(K, V) error
}

// omapEntries: the live entries of a non-nil *ordered.Map[string, V], in order, through its own Range.
func omapEntries(v reflect.Value) (keys []string, vals []reflect.Value) {
	rm := v.MethodByName("Range")
	fn := reflect.MakeFunc(rm.Type().In(0), func(args []reflect.Value) []reflect.Value {
		keys = append(keys, args[0].String())
		vals = append(vals, args[1])
		return []reflect.Value{reflect.Zero(rm.Type().In(0).Out(0))}
	})
	rm.Call([]reflect.Value{fn})
	return keys, vals
}

func tyDesc(t reflect.Type) any {
	switch {
	case t == tMapSA:
		return []any{"omap", "any"}
	case t == tMapSS:
		return []any{"omap", "string"}
	}
	if et, ok := isOMapPtr(t); ok {
		return []any{"omap", tyDesc(et)}
	}
	switch t.Kind() {
	case reflect.String:
		return "string"
	case reflect.Int:
		return "int"
	case reflect.Float64:
		return "float"
	case reflect.Bool:
		return "bool"
	case reflect.Interface:
		return "any"
	case reflect.Slice:
		return []any{"slice", tyDesc(t.Elem())}
	case reflect.Map:
		return []any{"map", tyDesc(t.Elem())}
	case reflect.Pointer:
		return []any{"ptr", tyDesc(t.Elem())}
	case reflect.Struct:
		var fs []any
		for i := 0; i < t.NumField(); i++ {
			f := t.Field(i)
			if !f.IsExported() {
				continue
			}
			tag, _ := f.Tag.Lookup("yaml")
			role := "normal"
			switch tag {
			case "-":
				role = "skip"
			case ",inline":
				role = "inline"
			}
			key, _, _ := strings.Cut(tag, ",")
			if key == "" {
				key = strings.ToLower(f.Name)
			}
			atag, _ := f.Tag.Lookup("aliases")
			var al []any
			for _, a := range strings.Split(atag, ",") {
				al = append(al, a)
			}
			fs = append(fs, []any{f.Name, key, al, role, tyDesc(f.Type)})
		}
		return []any{"struct", fs}
	}
	return []any{"named", t.String()}
}

// dumpVal renders a Go value in the GoVal convention of the Lean driver.
func dumpVal(v reflect.Value) any {
	t := v.Type()
	switch {
	case t == tMapSA:
		m := v.Interface().(*ordered.MapSA)
		if m == nil {
			return nil
		}
		o := vl.OMap{}
		m.Range(func(k string, x any) error { o = append(o, vl.KV{K: k, V: x}); return nil })
		return o
	case t == tMapSS:
		m := v.Interface().(*ordered.MapSS)
		if m == nil {
			return nil
		}
		o := vl.OMap{}
		m.Range(func(k string, x string) error { o = append(o, vl.KV{K: k, V: x}); return nil })
		return o
	}
	if _, ok := isOMapPtr(t); ok {
		if v.IsNil() {
			return nil
		}
		o := vl.OMap{}
		ks, vs := omapEntries(v)
		for i := range ks {
			o = append(o, vl.KV{K: ks[i], V: dumpVal(vs[i])})
		}
		return o
	}
	switch t.Kind() {
	case reflect.String:
		return v.String()
	case reflect.Int:
		return int(v.Int())
	case reflect.Float64:
		return v.Float()
	case reflect.Bool:
		return v.Bool()
	case reflect.Interface:
		if v.IsNil() {
			return nil
		}
		return v.Interface() // decoded source value: vl.Enc understands *MapSA, []any, scalars
	case reflect.Slice:
		if v.IsNil() {
			return nil
		}
		out := make([]any, v.Len())
		for i := range out {
			out[i] = dumpVal(v.Index(i))
		}
		return out
	case reflect.Map:
		if v.IsNil() {
			return nil
		}
		out := map[string]any{}
		it := v.MapRange()
		for it.Next() {
			out[it.Key().String()] = dumpVal(it.Value())
		}
		return umapLit(out)
	case reflect.Pointer:
		if v.IsNil() {
			return nil
		}
		return dumpVal(v.Elem())
	case reflect.Struct:
		o := vl.OMap{}
		for i := 0; i < t.NumField(); i++ {
			if !t.Field(i).IsExported() {
				continue
			}
			o = append(o, vl.KV{K: t.Field(i).Name, V: dumpVal(v.Field(i))})
		}
		return o
	}
	return fmt.Sprintf("<%s>", t)
}

// umapLit keeps dumped values (which may be vl.OMap etc.) under a map[string]any for vl.Enc.
func umapLit(m map[string]any) any { return m }

// ----- document generator -----

func c16Scalar(r *core.Rand) any {
	switch r.Intn(7) {
	case 0:
		return "str"
	case 1:
		return r.Intn(100) - 5
	case 2:
		return float64(r.Intn(50)) + 0.5
	case 3:
		return r.Bool()
	case 4:
		return nil
	case 5:
		return ""
	}
	return "text " + fmt.Sprint(r.Intn(9))
}

func c16AnyVal(r *core.Rand, depth int) any {
	if depth <= 0 || r.Intn(3) == 0 {
		return c16Scalar(r)
	}
	switch r.Intn(3) {
	case 0:
		n := r.Intn(3)
		out := make([]any, n)
		for i := range out {
			out[i] = c16AnyVal(r, depth-1)
		}
		return out
	default:
		m := ordered.NewMap[string, any](2)
		for i := r.Intn(3); i > 0; i-- {
			m.Set(core.Pick(r, []string{"x", "y", "zz", "a", "1"}), c16AnyVal(r, depth-1))
		}
		return m
	}
}

// value for a destination type: well-typed with probability (1 - illP)
func c16ValueFor(r *core.Rand, t reflect.Type, depth int, ill bool) any {
	if ill && r.Intn(3) == 0 {
		return c16AnyVal(r, 2)
	}
	if r.Intn(12) == 0 {
		return nil
	}
	switch {
	case t == tMapSA:
		m := ordered.NewMap[string, any](2)
		for i := r.Intn(4); i > 0; i-- {
			m.Set(core.Pick(r, []string{"x", "y", "pre", "b"}), c16AnyVal(r, 1))
		}
		return m
	case t == tMapSS:
		m := ordered.NewMap[string, any](2)
		for i := r.Intn(4); i > 0; i-- {
			m.Set(core.Pick(r, []string{"x", "y", "pre", "b"}), core.Pick(r, []any{"s", 3, true, 1.5}))
		}
		return m
	}
	if et, ok := isOMapPtr(t); ok {
		// several entries with composite values: what one entry leaves behind must not reach the next
		m := ordered.NewMap[string, any](3)
		for i := 1 + r.Intn(4); i > 0; i-- {
			m.Set(core.Pick(r, []string{"x", "y", "pre", "b", "c"}), c16ValueFor(r, et, depth+1, ill))
		}
		return m
	}
	switch t.Kind() {
	case reflect.String:
		return core.Pick(r, []any{"s", "", "two words", 5, true, 2.5})
	case reflect.Int:
		return r.Intn(50)
	case reflect.Float64:
		return float64(r.Intn(9)) + 0.25
	case reflect.Bool:
		return r.Bool()
	case reflect.Interface:
		return c16AnyVal(r, 2)
	case reflect.Slice:
		if r.Intn(5) == 0 { // scalar shorthand: appended
			return c16ValueFor(r, t.Elem(), depth-1, ill)
		}
		n := r.Intn(4)
		out := make([]any, n)
		for i := range out {
			out[i] = c16ValueFor(r, t.Elem(), depth-1, ill)
		}
		return out
	case reflect.Map:
		m := ordered.NewMap[string, any](2)
		for i := r.Intn(4); i > 0; i-- {
			m.Set(core.Pick(r, []string{"k", "k2", "z", "", "a"}), c16ValueFor(r, t.Elem(), depth-1, ill))
		}
		return m
	case reflect.Pointer:
		return c16ValueFor(r, t.Elem(), depth, ill)
	case reflect.Struct:
		return c16DocFor(r, t, depth-1, ill)
	}
	return nil
}

// extras include the field keys of the other family types: unknown here, claimed there (state leaking from one
// call to the next shows up as such a key vanishing)
var c16ExtraKeys = []string{"extra", "zz", "", "<<", "1", "true", "~", "Key", "KEY", "s ", "rest", "remainingfields", "contents",
	"k", "n", "key", "label", "group", "name", "id", "cmds", "s", "i", "f", "b", "ms", "ma", "mss", "title", "-", "skipped", "unexported"}

func c16DocFor(r *core.Rand, t reflect.Type, depth int, ill bool) *ordered.MapSA {
	type cand struct {
		key string
		ty  reflect.Type
	}
	var cands []cand
	var walk func(t reflect.Type)
	walk = func(t reflect.Type) {
		for i := 0; i < t.NumField(); i++ {
			f := t.Field(i)
			if !f.IsExported() {
				continue
			}
			tag, _ := f.Tag.Lookup("yaml")
			if tag == "-" {
				cands = append(cands, cand{strings.ToLower(f.Name), f.Type}) // goes to inline / is dropped
				continue
			}
			if tag == ",inline" {
				ft := f.Type
				if ft.Kind() == reflect.Pointer && ft.Elem().Kind() == reflect.Struct {
					walk(ft.Elem())
				}
				continue
			}
			key, _, _ := strings.Cut(tag, ",")
			if key == "" {
				key = strings.ToLower(f.Name)
			}
			cands = append(cands, cand{key, f.Type})
			atag, _ := f.Tag.Lookup("aliases")
			for _, a := range strings.Split(atag, ",") {
				if a != "" {
					cands = append(cands, cand{a, f.Type})
				}
			}
		}
	}
	walk(t)
	m := ordered.NewMap[string, any](8)
	n := r.Intn(len(cands) + 3)
	for i := 0; i < n; i++ {
		if r.Intn(4) == 0 {
			m.Set(core.Pick(r, c16ExtraKeys), c16AnyVal(r, 2))
			continue
		}
		c := core.Pick(r, cands)
		m.Set(c.key, c16ValueFor(r, c.ty, depth, ill))
	}
	return m
}

// normalise for comparison with yaml.v3: ordered maps stand in for plain maps
func normYaml(v any) any {
	switch t := v.(type) {
	case *ordered.MapSA:
		if t == nil {
			return nil
		}
		return normYaml(ordered.ToMapRecursive(t))
	case *ordered.MapSS:
		if t == nil {
			return nil
		}
		out := map[string]any{}
		t.Range(func(k, v string) error { out[k] = v; return nil })
		return out
	case map[string]any:
		out := map[string]any{}
		for k, x := range t {
			out[k] = normYaml(x)
		}
		return out
	case []any:
		out := make([]any, len(t))
		for i, x := range t {
			out[i] = normYaml(x)
		}
		return out
	case vl.OMap:
		out := map[string]any{}
		for _, kv := range t {
			out[kv.K] = normYaml(kv.V)
		}
		return out
	}
	return v
}

func runC16(c *ctx) error {
	const nShard = 8
	var shards []*core.Session
	for i := 0; i < nShard; i++ {
		shards = append(shards, core.NewSession("c16"))
	}
	rng := c.rng.Fork()
	n := 100000
	if c.thorough() {
		n = 400000
	}
	for i := 0; i < n; i++ {
		fam := c16Family[i%len(c16Family)]
		ill := rng.Intn(5) == 0
		pre := rng.Intn(3) == 0
		mk := fam.mk
		if pre {
			mk = fam.prefilled
		}
		dst := mk()
		if !pre && (i/len(c16Family))%3 == 1 { // by round, not by i: every family gets its turn whatever the number of families
			// a destination that was used before and reset with s = s[:0]: empty slices whose spare capacity still holds
			// old elements — nothing of them is part of the destination
			if staleSpare(reflect.ValueOf(dst).Elem()) {
				c.res.Hist("dst.reused-slices-with-stale-spare-capacity")
			}
		}
		t := reflect.TypeOf(dst).Elem()
		doc := c16DocFor(rng, t, 2, ill)
		if i%97 == 13 {
			// a very wide mapping: 64-200 filler keys in front of the keys the fields name (position must not matter)
			wide := ordered.NewMap[string, any](0)
			for j := 0; j < 64+rng.Intn(137); j++ {
				wide.Set(fmt.Sprintf("filler_%03d", j), j)
			}
			doc.Range(func(k string, v any) error { wide.Set(k, v); return nil })
			doc = wide
			c.res.Hist("doc.wide-mapping")
		}
		if rng.Intn(6) == 0 && doc.Len() > 0 {
			// the same document as a map that still carries tombstones (keys set and deleted below the compaction
			// threshold, a rename onto an existing key): dead slots are not part of the input
			live := doc.Len()
			for j := 0; j < 1+live/3; j++ {
				doc.Set(fmt.Sprintf("\x00dead%d", j), "dead value")
			}
			for j := 0; j < 1+live/3; j++ {
				doc.Delete(fmt.Sprintf("\x00dead%d", j))
			}
			var firstK string
			var firstV any
			doc.Range(func(k string, v any) error {
				if firstK == "" {
					firstK, firstV = k, v
				}
				return nil
			})
			doc.Set("\x00tmp", "stale value")
			doc.Replace("\x00tmp", firstK, firstV)
			c.res.Hist("doc.source-with-tombstones")
		}
		curDump := vl.Enc(dumpVal(reflect.ValueOf(dst).Elem()))
		var err error
		var ans string
		if pn, msg := guard(func() { err = ordered.Unmarshal(doc, dst) }); pn {
			ans = "panic:" + msg
			c.res.Fail(core.OracleFailure{What: "Unmarshal panicked", Input: map[string]any{"type": fam.name, "doc": vl.Enc(doc)}, Got: msg})
		} else if err != nil {
			ans = "error"
		} else {
			ans = "ok " + vl.Enc(dumpVal(reflect.ValueOf(dst).Elem()))
		}
		req := "unmarshal " + vl.Enc(tyDesc(t)) + " " + vl.Enc(doc) + " " + curDump
		shards[i%nShard].Add(vl.Escape(req), vl.Escape(ans))
		c.res.Case(fam.name+vl.Enc(doc)+curDump, doc.Len() > 0)
		c.res.Hist("type." + fam.name)
		if err != nil {
			c.res.Hist("outcome.error")
		} else {
			c.res.Hist("outcome.ok")
		}
		if ill {
			c.res.Hist("stream.ill-typed")
		}
		if pre {
			c.res.Hist("dst.prefilled")
		}
		if i < 3 {
			c.res.Sample(map[string]any{"type": fam.name, "doc": vl.Enc(doc), "result": ans})
		}
		// oracle: yaml.v3's own decoder, alias-free targets, well-typed input, fresh destination
		if fam.aliasFree && !ill && !pre && err == nil && !nullInSeq(doc) {
			jb, jerr := json.Marshal(doc)
			if jerr == nil {
				ref := fam.mk()
				if yerr := yaml.Unmarshal(jb, ref); yerr == nil {
					c.res.OracleChecks++
					a := normYaml(dumpVal(reflect.ValueOf(dst).Elem()))
					b := normYaml(dumpVal(reflect.ValueOf(ref).Elem()))
					if !yamlEquivalent(a, b) {
						c.res.Fail(core.OracleFailure{What: "result differs from yaml.v3's own decoder (alias-free target, well-typed input)",
							Input: map[string]any{"type": fam.name, "doc": string(jb)}, Got: fmt.Sprint(a), Want: fmt.Sprint(b)})
					}
				} else {
					c.res.Hist("yaml-oracle.rejects")
				}
			}
		}
		// oracle: map-typed fields of a pre-populated destination keep the entries the document does not mention
		// (an empty mapping mentions none), as yaml.v3 does
		if fam.aliasFree && !ill && pre && err == nil && !nullInSeq(doc) {
			if jb, jerr := json.Marshal(doc); jerr == nil {
				ref := fam.prefilled()
				if yerr := yaml.Unmarshal(jb, ref); yerr == nil {
					a := reflect.ValueOf(dst).Elem()
					b := reflect.ValueOf(ref).Elem()
					// ...and so do ordered-map fields (an ordered map stands in for a plain map): the entries it held
					// plus the ones the document gives
					for fi := 0; fi < a.NumField() && a.Kind() == reflect.Struct; fi++ {
						fa := a.Field(fi)
						tag := strings.Split(a.Type().Field(fi).Tag.Get("yaml"), ",")[0]
						lenM := fa.MethodByName("Len")
						if fa.Kind() != reflect.Pointer || fa.IsNil() || !lenM.IsValid() || tag == "" || !fa.CanInterface() {
							continue
						}
						dm := doc
						if dm == nil {
							continue
						}
						want := map[string]bool{}
						pf := reflect.ValueOf(fam.prefilled()).Elem().Field(fi)
						if pf.Kind() == reflect.Pointer && !pf.IsNil() {
							if r, ok := pf.Interface().(interface{ Len() int }); ok && r.Len() == 1 {
								want["pre"] = true // the family's ordered maps are pre-populated with the single key "pre"
							}
						}
						if dv, ok := dm.Get(tag); ok {
							if inner, ok := dv.(*ordered.MapSA); ok {
								inner.Range(func(k string, _ any) error { want[k] = true; return nil })
							} else {
								continue
							}
						}
						c.res.OracleChecks++
						if got := lenM.Call(nil)[0].Int(); int(got) != len(want) {
							c.res.Fail(core.OracleFailure{What: "an ordered-map field of a pre-populated destination does not hold its old entries plus the document's",
								Input: map[string]any{"type": fam.name, "doc": string(jb), "field": a.Type().Field(fi).Name}, Got: fmt.Sprint(got), Want: fmt.Sprint(len(want))})
						}
					}
					for fi := 0; fi < a.NumField() && a.Kind() == reflect.Struct; fi++ {
						fa, fb := a.Field(fi), b.Field(fi)
						if fa.Kind() != reflect.Map || !fa.CanInterface() || a.Type().Field(fi).Tag.Get("yaml") == ",inline" {
							continue
						}
						c.res.OracleChecks++
						if fa.Len() != fb.Len() {
							c.res.Fail(core.OracleFailure{What: "a map field of a pre-populated destination ends up with other entries than under yaml.v3's decoder",
								Input: map[string]any{"type": fam.name, "doc": string(jb), "field": a.Type().Field(fi).Name}, Got: fmt.Sprint(fa.Interface()), Want: fmt.Sprint(fb.Interface())})
						}
					}
				}
			}
		}
		// oracle: entries of an ordered-map field are independent — each equals what its own value decodes to alone
		if fam.name == "omapcomposite" && err == nil && !pre && !ill {
			a := reflect.ValueOf(dst).Elem()
			for fi := 0; fi < a.NumField(); fi++ {
				fa := a.Field(fi)
				et, ok := isOMapPtr(fa.Type())
				if !ok || fa.IsNil() {
					continue
				}
				tag := strings.Split(a.Type().Field(fi).Tag.Get("yaml"), ",")[0]
				dv, _ := doc.Get(tag)
				inner, ok := dv.(*ordered.MapSA)
				if !ok {
					continue
				}
				ks, vs := omapEntries(fa)
				for i, k := range ks {
					src, _ := inner.Get(k)
					fresh := reflect.New(et)
					if ferr := ordered.Unmarshal(src, fresh.Interface()); ferr != nil {
						continue
					}
					c.res.OracleChecks++
					if got, want := vl.Enc(dumpVal(vs[i])), vl.Enc(dumpVal(fresh.Elem())); got != want {
						jb, _ := json.Marshal(doc)
						c.res.Fail(core.OracleFailure{What: "an entry of an ordered-map field differs from its own value decoded alone (something leaked from another entry)",
							Input: map[string]any{"type": fam.name, "doc": string(jb), "field": a.Type().Field(fi).Name, "entry": k}, Got: got, Want: want})
					}
				}
			}
		}
		// oracle: partition — every input key is consumed by exactly one place (inline-map targets make it observable)
		if err == nil && (fam.name == "aliases" || fam.name == "inlinemap" || fam.name == "aliasemptyentry") && !pre {
			c.res.OracleChecks++
			c16PartitionOracle(c, fam.name, doc, dst)
		}
	}
	c.res.Rule = "random (target type, document) pairs over a family of 11 struct types (scalars, slices, maps, ordered maps, nested / pointer-to-struct / slice-of-struct fields, '-' and untagged fields, inline map / ordered map / any / struct, alias lists incl. empty alias entries); keys drawn from tags, aliases, extras and an adversarial pool; well-typed values plus a counted ill-typed stream; zero-valued and pre-populated destinations. Non-trivial = non-empty document; distinct by (type, document, destination)."
	mm, total, err := core.RunSessions(c.driver, shards, 20, 0)
	c.res.ModelRequests = total
	c.res.Mismatches = mm
	return err
}

// staleSpare gives every slice field with a composite element type (struct, pointer, map, slice) three non-zero
// elements and then truncates it to length 0, keeping the capacity. Reports whether it changed anything.
func staleSpare(v reflect.Value) bool {
	if v.Kind() != reflect.Struct {
		return false
	}
	changed := false
	var fill func(e reflect.Value, depth int)
	fill = func(e reflect.Value, depth int) {
		switch e.Kind() {
		case reflect.String:
			e.SetString("stale")
		case reflect.Int:
			e.SetInt(99)
		case reflect.Float64:
			e.SetFloat(9.5)
		case reflect.Bool:
			e.SetBool(true)
		case reflect.Struct:
			for i := 0; i < e.NumField(); i++ {
				if e.Field(i).CanSet() && depth < 3 {
					fill(e.Field(i), depth+1)
				}
			}
		case reflect.Pointer:
			if depth < 3 && e.Type().Elem().Kind() == reflect.Struct && e.Type().Elem().PkgPath() == "main" {
				e.Set(reflect.New(e.Type().Elem()))
				fill(e.Elem(), depth+1)
			}
		case reflect.Map:
			if e.Type().Key().Kind() == reflect.String && e.Type().Elem().Kind() == reflect.String {
				e.Set(reflect.MakeMap(e.Type()))
				e.SetMapIndex(reflect.ValueOf("stale"), reflect.ValueOf("stale"))
			}
		case reflect.Slice:
			if e.Type().Elem().Kind() == reflect.String {
				e.Set(reflect.ValueOf([]string{"stale"}))
			}
		}
	}
	for i := 0; i < v.NumField(); i++ {
		f := v.Field(i)
		if !f.CanSet() || f.Kind() != reflect.Slice {
			continue
		}
		switch f.Type().Elem().Kind() {
		case reflect.Struct, reflect.Pointer, reflect.Map, reflect.Slice:
			sl := reflect.MakeSlice(f.Type(), 3, 3)
			for j := 0; j < 3; j++ {
				fill(sl.Index(j), 0)
			}
			f.Set(sl.Slice(0, 0))
			changed = true
		}
	}
	return changed
}

// yamlEquivalent: deep equality where yaml.v3 may leave nil what Unmarshal makes empty (and vice versa).
func yamlEquivalent(a, b any) bool {
	if isEmptyish(a) && isEmptyish(b) {
		return true
	}
	switch x := a.(type) {
	case map[string]any:
		y, ok := b.(map[string]any)
		if !ok || len(x) != len(y) {
			return false
		}
		for k, v := range x {
			w, ok := y[k]
			if !ok || !yamlEquivalent(v, w) {
				return false
			}
		}
		return true
	case []any:
		y, ok := b.([]any)
		if !ok || len(x) != len(y) {
			return false
		}
		for i := range x {
			if !yamlEquivalent(x[i], y[i]) {
				return false
			}
		}
		return true
	}
	return reflect.DeepEqual(a, b)
}

func isEmptyish(v any) bool {
	switch x := v.(type) {
	case nil:
		return true
	case map[string]any:
		return len(x) == 0
	case []any:
		return len(x) == 0
	}
	return false
}

func c16PartitionOracle(c *ctx, fam string, doc *ordered.MapSA, dst any) {
	desc := map[string]any{"type": fam, "doc": vl.Enc(doc)}
	var rest map[string]any
	claimed := map[string]bool{}
	switch d := dst.(type) {
	case *fInlineMap:
		rest = d.Rest
		claimed["k"], claimed["n"] = true, true
	case *fAliases:
		rest = d.Rest
		// which key did each field take?
		pickKey := func(keys ...string) {
			for _, k := range keys {
				if doc.Contains(k) {
					claimed[k] = true
					return
				}
			}
		}
		pickKey("key", "id", "identifier")
		pickKey("label", "name")
		pickKey("group", "title", "caption")
	case *fAliasEmptyEntry:
		rest = d.Rest
		pickKey := func(keys ...string) string {
			for _, k := range keys {
				if doc.Contains(k) {
					claimed[k] = true
					return k
				}
			}
			return ""
		}
		// (the empty entries of the alias lists name nothing)
		kk := pickKey("key", "id")
		lk := pickKey("label", "name", "title")
		// ...and a field no key names stays as it was (zero here)
		if kk == "" && d.Key != "" {
			c.res.Fail(core.OracleFailure{What: "a field none of whose names is in the input was set", Input: desc, Got: d.Key})
		}
		if lk == "" && d.Label != "" {
			c.res.Fail(core.OracleFailure{What: "a field none of whose names is in the input was set", Input: desc, Got: d.Label})
		}
	}
	doc.Range(func(k string, v any) error {
		_, inRest := rest[k]
		if claimed[k] == inRest {
			c.res.Fail(core.OracleFailure{What: fmt.Sprintf("key %q is consumed %s", k, map[bool]string{true: "twice (field and inline)", false: "by nothing"}[inRest]), Input: desc})
		}
		return nil
	})
	for k := range rest {
		if !doc.Contains(k) {
			c.res.Fail(core.OracleFailure{What: fmt.Sprintf("inline map has key %q that the input lacks", k), Input: desc})
		}
	}
}

// nullInSeq: a null element inside a sequence (yaml.v3 drops such elements when decoding into a
// typed slice; such documents are not "well-typed" for the comparison with yaml.v3).
func nullInSeq(v any) bool {
	switch t := v.(type) {
	case *ordered.MapSA:
		found := false
		t.Range(func(_ string, x any) error {
			if nullInSeq(x) {
				found = true
			}
			return nil
		})
		return found
	case []any:
		for _, x := range t {
			if x == nil || nullInSeq(x) {
				return true
			}
		}
	}
	return false
}
