package main

// C15 — step kind selection: implementation (stepFromMap / NewScalarStep through the
// real unmarshalStep) vs the Lean table interpreter, plus the rule table written directly.

import (
	"errors"
	"fmt"
	"sort"
	"strings"

	pipeline "github.com/buildkite/go-pipeline"
	"github.com/buildkite/go-pipeline/ordered"
	"github.com/buildkite/go-pipeline/warning"

	"verifharness/core"
	"verifharness/vl"
)

func init() { checks["C15"] = runC15 }

var kindKeys = []string{"command", "commands", "plugins", "wait", "waiter", "block", "input", "manual", "trigger", "group"}

// well-typed values for the kind keys, so typed decoding cannot fail
func kindKeyValue(k string) any {
	switch k {
	case "command":
		return "echo hi"
	case "commands":
		return []any{"a", "b"}
	case "plugins":
		return []any{"docker#v1"}
	case "wait", "waiter":
		return nil
	case "block", "input", "manual":
		return "Release?"
	case "trigger":
		return "other-pipeline"
	case "group":
		return "Group label"
	}
	return nil
}

func classifyStep(st pipeline.Step, err error) string {
	kind := "?"
	switch st.(type) {
	case *pipeline.CommandStep:
		kind = "command"
	case *pipeline.WaitStep:
		kind = "wait"
	case *pipeline.InputStep:
		kind = "input"
	case *pipeline.TriggerStep:
		kind = "trigger"
	case *pipeline.GroupStep:
		kind = "group"
	case *pipeline.UnknownStep:
		kind = "unknown"
	case nil:
		kind = "nil"
	}
	switch {
	case err == nil:
		if kind == "unknown" {
			return "unknown-without-warning"
		}
		if g, ok := st.(*pipeline.GroupStep); ok && countUnknownDeep(g.Steps) > 0 {
			// a nested step that matched no rule is "anything else" too: it comes with a warning
			return "known:group(nested unknown step without warning)"
		}
		return "known:" + kind
	case warning.Is(err):
		if kind != "unknown" {
			return "known:" + kind + "+warning"
		}
		if strings.Contains(err.Error(), "fell back") {
			return "fallback"
		}
		switch {
		case errors.Is(err, pipeline.ErrUnknownStepType):
			return "unknownType"
		case errors.Is(err, pipeline.ErrStepTypeInference):
			return "inferFail"
		}
		return "unknown+otherwarning"
	default:
		return "hardError"
	}
}

// the documented rule, written directly (the property's own oracle)
func specKind(keys map[string]bool, typ any, hasType bool) string {
	if hasType {
		s, ok := typ.(string)
		if !ok {
			return "hardError"
		}
		switch s {
		case "command", "script":
			return "known:command"
		case "wait", "waiter":
			return "known:wait"
		case "block", "input", "manual":
			return "known:input"
		case "trigger":
			return "known:trigger"
		case "group":
			return "known:group"
		}
		return "unknownType"
	}
	switch {
	case keys["command"] || keys["commands"] || keys["plugins"]:
		return "known:command"
	case keys["wait"] || keys["waiter"]:
		return "known:wait"
	case keys["block"] || keys["input"] || keys["manual"]:
		return "known:input"
	case keys["trigger"]:
		return "known:trigger"
	case keys["group"]:
		return "known:group"
	}
	return "inferFail"
}

type extraKV struct {
	k string
	v any
}

var c15Extras = []extraKV{
	{"label", "L"}, {"key", "k1"}, {"name", "N"}, {"id", "i"}, {"identifier", "ii"}, {"env", ordered.MapFromItems(ordered.TupleSA{Key: "A", Value: "b"})},
	{"if", "build.branch == 'main'"}, {"depends_on", []any{"x"}}, {"agents", ordered.MapFromItems(ordered.TupleSA{Key: "queue", Value: "q"})},
	{"", "empty-key string"}, {"", ordered.MapFromItems(ordered.TupleSA{Key: "x", Value: 1})}, {"", []any{"docker#v9"}}, {"", nil},
	{"<<", "m"}, {"1", 1}, {"true", true}, {"~", nil}, {"0x1f", 31}, {"Type", "wait"}, {"TYPE", "group"}, {"Command", "x"},
	{"steps", []any{}}, {"timeout_in_minutes", 5}, {"soft_fail", true}, {"types", "wait"}, {"commandx", "y"}, {"wait ", nil},
	{"-", []any{"x"}}, {"-", ordered.MapFromItems(ordered.TupleSA{Key: "x", Value: 1})}, {"-", "dash"},
	{"async", true}, {"build", ordered.MapFromItems(ordered.TupleSA{Key: "message", Value: "m"})}, {"fields", []any{}},
}

func runC15(c *ctx) error {
	sess := core.NewSession("c15")
	types := []struct {
		has bool
		v   any
		tag string
	}{
		{false, nil, "absent"}, {true, "command", "command"}, {true, "script", "script"}, {true, "wait", "wait"}, {true, "waiter", "waiter"},
		{true, "block", "block"}, {true, "input", "input"}, {true, "manual", "manual"}, {true, "trigger", "trigger"}, {true, "group", "group"},
		{true, "deploy", "unknown:deploy"}, {true, "commands", "unknown:commands"}, {true, "plugins", "unknown:plugins"}, {true, "steps", "unknown:steps"}, {true, "", "unknown:empty"}, {true, "Command", "unknown:Command"}, {true, "wait ", "unknown:wait-space"},
		{true, 7, "nonstring:int"}, {true, nil, "nonstring:null"}, {true, true, "nonstring:bool"}, {true, []any{"wait"}, "nonstring:list"},
	}
	stride := 1
	if !c.thorough() {
		stride = 1 // the table is small enough to enumerate completely on every run
	}
	rng := c.rng.Fork()
	for mask := 0; mask < 1<<len(kindKeys); mask += stride {
		for _, ty := range types {
			for variant := 0; variant < 5; variant++ {
				o := ordered.NewMap[string, any](8)
				keys := map[string]bool{}
				var keyList []any
				var extras []extraKV
				order := make([]int, len(kindKeys))
				for i := range order {
					order[i] = i
				}
				if variant == 2 {
					// the kind keys in a shuffled document order: the rule looks at membership, not position
					for i := len(order) - 1; i > 0; i-- {
						j := rng.Intn(i + 1)
						order[i], order[j] = order[j], order[i]
					}
				}
				if variant == 4 {
					// a typed field with a wrongly shaped value: decoding as a command or group step fails hard, the step
					// falls back to an unknown step — whatever other kind keys it carries, never to another known kind
					extras = append(extras, core.Pick(rng, []extraKV{{"env", []any{"A", "B"}}, {"env", "nope"}, {"steps", []any{"mystery"}},
						{"steps", []any{ordered.MapFromItems(ordered.TupleSA{Key: "llama", Value: "Kuzco"})}}, {"matrix", "nope"}, {"cache", []any{[]any{}}}}))
				}
				if variant >= 1 && variant != 4 {
					n := 1 + rng.Intn(3)
					for i := 0; i < n; i++ {
						extras = append(extras, core.Pick(rng, c15Extras))
					}
				}
				// random interleaving of extras and kind keys: extras first, last, or in the middle
				pos := rng.Intn(3)
				addExtras := func() {
					for _, e := range extras {
						if !o.Contains(e.k) {
							o.Set(e.k, e.v)
							keyList = append(keyList, e.k)
						}
					}
				}
				if pos == 0 {
					addExtras()
				}
				if ty.has && pos != 2 {
					o.Set("type", ty.v)
					keyList = append(keyList, "type")
				}
				for i, ki := range order {
					k := kindKeys[ki]
					if mask&(1<<ki) != 0 {
						if variant == 3 {
							o.Set(k, nil) // every kind key with a null value: still that key, still that kind
						} else {
							o.Set(k, kindKeyValue(k))
						}
						keys[k] = true
						keyList = append(keyList, k)
					}
					if pos == 1 && i == 4 {
						addExtras()
					}
				}
				if ty.has && pos == 2 {
					o.Set("type", ty.v)
					keyList = append(keyList, "type")
				}
				if pos == 2 {
					addExtras()
				}
				var got string
				if p, msg := guard(func() {
					st, err := pipeline.VerifStepFromMap(o)
					got = classifyStep(st, err)
				}); p {
					got = "panic:" + msg
				}
				want := specKind(keys, ty.v, ty.has)
				c.res.OracleChecks++
				desc := map[string]any{"keys": keyList, "type": ty.tag}
				if variant == 4 {
					// the malformed value may or may not matter for the selected kind; what is excluded is any OTHER outcome
					if got != want && !(got == "fallback" && (want == "known:command" || want == "known:group")) {
						c.res.Fail(core.OracleFailure{What: "a step with a malformed typed field is neither the kind the rule selects nor the unknown-step fallback", Input: map[string]any{"keys": keyList, "type": ty.tag, "malformed": extras[0].k, "value": fmt.Sprint(extras[0].v)}, Got: got, Want: want + " or fallback"})
					}
					c.res.Case(fmt.Sprintf("%d/%s/malformed/%s", mask, ty.tag, extras[0].k), mask != 0 || ty.has)
					c.res.Hist("malformed-typed-field")
					c.res.Hist("result." + got)
					continue
				}
				if got != want {
					f := core.OracleFailure{What: "step kind differs from the documented rule", Input: desc, Got: got, Want: want}
					if hasEmptyKey(extras) {
						if id, ok := c.known.has("empty-key-consumed-as-field"); ok {
							f.Known = id
						}
					}
					c.res.Fail(f)
				}
				var tv any
				if ty.has {
					tv = ty.v
					if _, isList := tv.([]any); isList {
						tv = 0 // any non-string marker
					}
				}
				sess.Add(vl.Escape("select "+vl.Enc(keyList)+" "+vl.Enc(tv)), got)
				c.res.Case(fmt.Sprintf("%d/%s/%v/%v", mask, ty.tag, sortedExtra(extras), order), mask != 0 || ty.has)
				c.res.Hist("type." + strings.SplitN(ty.tag, ":", 2)[0])
				c.res.Hist("result." + got)
				if variant >= 1 {
					c.res.Hist("with-extra-keys")
				}
				if variant == 2 {
					c.res.Hist("kind-keys-shuffled")
				}
				if variant == 3 {
					c.res.Hist("kind-keys-null-valued")
				}
				if mask == 0b1000001001 && ty.tag == "absent" && variant == 0 {
					c.res.Sample(desc)
				}
			}
		}
	}
	// scalar steps through the real unmarshalStep
	scalars := []string{"wait", "waiter", "block", "input", "manual", "trigger", "group", "command", "", "Wait", "wait ", " wait", "waiter2", "blocks", "~", "null", "true", "1"}
	for _, s := range scalars {
		var got string
		if p, msg := guard(func() {
			st, err := pipeline.VerifUnmarshalStep(s)
			got = classifyStep(st, err)
		}); p {
			got = "panic:" + msg
		}
		want := "unknownType"
		switch s {
		case "wait", "waiter":
			want = "known:wait"
		case "block", "input", "manual":
			want = "known:input"
		}
		c.res.OracleChecks++
		if got != want {
			c.res.Fail(core.OracleFailure{What: "scalar step kind differs from the documented rule", Input: s, Got: got, Want: want})
		}
		sess.Add(vl.Escape("scalar "+vl.Enc(s)), got)
		c.res.Case("scalar/"+s, true)
		c.res.Hist("scalar")
	}
	c.res.Sample(map[string]any{"scalar": "waiter"})
	c.res.Exhaustive = true
	c.res.Rule = "every subset of the ten kind keys x every type value (9 known, 7 unknown strings incl. the kind keys that are not type values, 4 non-strings, absent), each once plain, once with 1-3 extra keys from an adversarial pool at a random position, once with the kind keys in a shuffled document order, and once with every kind key null-valued, through the real stepFromMap; all scalar strings of a pool through unmarshalStep. Non-trivial = at least one kind key or a type; distinct by (subset, type, extras)."
	mm, total, err := core.RunSessions(c.driver, []*core.Session{sess}, 20, 0)
	c.res.ModelRequests = total
	c.res.Mismatches = mm
	return err
}

func hasEmptyKey(es []extraKV) bool {
	for _, e := range es {
		if e.k == "" {
			return true
		}
	}
	return false
}

func sortedExtra(es []extraKV) []string {
	var out []string
	for _, e := range es {
		out = append(out, fmt.Sprintf("%s=%T", e.k, e.v))
	}
	sort.Strings(out)
	return out
}
