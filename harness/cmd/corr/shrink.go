package main

// Delta debugging of failing documents. When a check that supports single-document mode reports an
// unlisted oracle failure whose input carries a "document", the document is reduced on its YAML node
// tree (drop a mapping pair, drop a sequence element, replace a collection by a scalar) for as long as
// the same oracle (same message, digits ignored) still fails on the real implementation. The result
// is attached to the failure as "shrunk"; the original input stays the replay of record.

import (
	"regexp"
	"time"

	"gopkg.in/yaml.v3"

	"verifharness/core"
)

var supportsOnly = map[string]bool{"C03": true, "C09": true, "C13": true, "C04": true}

var digitsRE = regexp.MustCompile(`[0-9]+`)

func normWhat(s string) string { return digitsRE.ReplaceAllString(s, "#") }

func shrinkFirstFailure(c *ctx, f func(*ctx) error) {
	idx := -1
	for i, fl := range c.res.OracleFailures {
		if fl.Known != "" {
			continue
		}
		if m, ok := fl.Input.(map[string]any); ok {
			if _, ok := m["document"].(string); ok {
				idx = i
				break
			}
		}
	}
	if idx < 0 {
		return
	}
	fail := &c.res.OracleFailures[idx]
	in := fail.Input.(map[string]any)
	doc := in["document"].(string)
	want := normWhat(fail.What)
	var env map[string]string
	switch e := in["env"].(type) {
	case map[string]string:
		env = e
	case mapEnv:
		env = e
	}
	stillFails := func(src []byte) bool {
		cc := &ctx{tier: "quick", seed: c.seed, driver: c.driver, res: core.NewResult(c.res.Property, "quick", c.seed), rng: core.NewRand(c.seed), known: c.known, only: src, onlyEnv: env}
		p, _ := guard(func() { _ = f(cc) })
		core.CleanupSessions() // single-document mode never runs its sessions
		if p {
			return false
		}
		for _, g := range cc.res.OracleFailures {
			if g.Known == "" && normWhat(g.What) == want {
				return true
			}
		}
		return false
	}
	if !stillFails([]byte(doc)) {
		return // not reproducible in single-document mode (e.g. depends on generator state)
	}
	deadline := time.Now().Add(30 * time.Second)
	cur := []byte(doc)
	evals := 0
	for progress := true; progress && time.Now().Before(deadline); {
		progress = false
		var root yaml.Node
		if yaml.Unmarshal(cur, &root) != nil || len(root.Content) != 1 {
			break
		}
		n := countReductions(root.Content[0])
		for k := 0; k < n && time.Now().Before(deadline); k++ {
			var r2 yaml.Node
			if yaml.Unmarshal(cur, &r2) != nil {
				break
			}
			i := k
			if !applyReduction(r2.Content[0], &i) {
				continue
			}
			b, err := yaml.Marshal(&r2)
			if err != nil || len(b) >= len(cur) {
				continue
			}
			evals++
			if stillFails(b) {
				cur = b
				progress = true
				break
			}
		}
	}
	if len(cur) < len(doc) {
		fail.Shrunk = map[string]any{"document": string(cur), "evaluations": evals}
	}
}

// reductions are numbered in pre-order: for a mapping, one per pair (drop it) and one per collection value
// (replace by a scalar); for a sequence, one per element (drop it).
func countReductions(n *yaml.Node) int {
	c := 0
	switch n.Kind {
	case yaml.MappingNode:
		for i := 0; i+1 < len(n.Content); i += 2 {
			c++
			v := n.Content[i+1]
			if v.Kind == yaml.MappingNode || v.Kind == yaml.SequenceNode {
				c++
				c += countReductions(v)
			}
		}
	case yaml.SequenceNode:
		for _, e := range n.Content {
			c++
			c += countReductions(e)
		}
	}
	return c
}

func applyReduction(n *yaml.Node, k *int) bool {
	switch n.Kind {
	case yaml.MappingNode:
		for i := 0; i+1 < len(n.Content); i += 2 {
			if *k == 0 {
				n.Content = append(n.Content[:i], n.Content[i+2:]...)
				return true
			}
			*k--
			v := n.Content[i+1]
			if v.Kind == yaml.MappingNode || v.Kind == yaml.SequenceNode {
				if *k == 0 {
					n.Content[i+1] = &yaml.Node{Kind: yaml.ScalarNode, Tag: "!!str", Value: "x"}
					return true
				}
				*k--
				if applyReduction(v, k) {
					return true
				}
			}
		}
	case yaml.SequenceNode:
		for i, e := range n.Content {
			if *k == 0 {
				n.Content = append(n.Content[:i], n.Content[i+1:]...)
				return true
			}
			*k--
			if applyReduction(e, k) {
				return true
			}
		}
	}
	return false
}
