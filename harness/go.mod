module verifharness

go 1.22.6

require (
	github.com/buildkite/go-pipeline v0.0.0
	github.com/buildkite/interpolate v0.1.5
	github.com/lestrrat-go/jwx/v2 v2.1.4
	gopkg.in/yaml.v3 v3.0.1
)

require (
	github.com/google/go-cmp v0.7.0 // indirect
	github.com/oleiade/reflections v1.1.0 // indirect
)

replace github.com/buildkite/go-pipeline => /repo
