// Package gen: grammar-directed generator of pipeline documents (as ordered Go trees:
// *ordered.MapSA, []any, scalars), shared by the parse/marshal, interpolation and signing checks.
package gen

import (
	"fmt"
	"time"

	"github.com/buildkite/go-pipeline/ordered"

	"verifharness/core"
)

type Opts struct {
	R *core.Rand
	// Str produces a string for a value or key position (pool depends on the property).
	Str func(r *core.Rand) string
	// Key produces an extra (unknown) key name.
	Key func(r *core.Rand) string
	// UntypedExotic: allow timestamps, huge ints, non-finite floats in untyped positions.
	UntypedExotic bool
	// TypeErrors: probability (per 1000) of injecting an ill-typed value at a typed position.
	TypeErrors int
	// NoAliasesKeys: do not use alias keys (name/id/identifier/commands shorthand) — for strict round-trip checks.
	MaxGroupDepth int
	// MaxMapSize for unknown-field maps (use > 8 to cross Go's small-map bucket).
	MaxMapSize int
	// GroupBias: extra percentage of steps that are groups (to reach deep nesting).
	GroupBias int
	// ManySteps: one document in ManySteps gets 48-70 top-level steps (0: never)
	ManySteps int
	// ManyUnknown: one document in ManyUnknown has 21-45 steps in one sequence that each fall back to an unknown step (0: never)
	ManyUnknown int
	// DeepNesting: one document in DeepNesting carries, under an unknown key, a chain of 28-80 nested mappings and
	// sequences whose keys are not in sorted order (0: never)
	DeepNesting int
	Hist        func(string)
}

// UnknownScalarSteps: scalar step entries that match no rule (case and surrounding blanks are part of the entry).
var UnknownScalarSteps = []string{"Deploy-To-Production", " notify-oncall ", "Wait", "WAIT", "waiter2", "Smoke Test", "command", "trigger", "group", "script", "wait "}

// DeepChain: n levels, alternating a three-key mapping (zeta, alpha, next — document order is not sorted order) and a
// one-element sequence; the innermost value is a scalar.
func DeepChain(n int) any {
	var v any = "bottom"
	for i := 0; i < n; i++ {
		if i%3 == 2 {
			v = []any{v}
			continue
		}
		m := ordered.NewMap[string, any](3)
		m.Set("zeta", i)
		m.Set("alpha", "a")
		m.Set("next", v)
		v = m
	}
	return v
}

func (o *Opts) hist(k string) {
	if o.Hist != nil {
		o.Hist(k)
	}
}

var plainWords = []string{"build", "test", "deploy", "lint", "echo hello", "make -j4", "docker#v5.0", "a b", "x", "release", "main"}

// YAMLLookalikes: strings that look like other YAML types or need quoting.
var YAMLLookalikes = []string{"yes", "no", "on", "off", "true", "false", "null", "~", "0x1f", "010", "1e3", "1_000", ".5", "-", "- a", "a: b", "#c", "2002-08-15",
	"2001-12-14t21:59:43.10-05:00", "", " ", " lead", "trail ", "multi\nline", "tab\there", "quote\"s", "it's", "{a: 1}", "[1]", "*alias", "&anchor", "!tag", "%dir", "@at", "`bt",
	"é", "日本", "emoji😀", "<<", "=", "?", "? x", "|", ">", "---", "...", "0o17", "+1", ".inf", ".nan", "1:30", "\\n", "end:"}

func DefaultStr(r *core.Rand) string {
	if r.Intn(4) == 0 {
		return core.Pick(r, YAMLLookalikes)
	}
	return core.Pick(r, plainWords)
}

var extraKeys = []string{"agents", "retry", "timeout_in_minutes", "soft_fail", "if", "depends_on", "artifact_paths", "branches", "concurrency", "parallelism",
	"notify", "priority", "skip", "allow_dependency_failure", "fields", "prompt", "build", "async", "x-custom", "zz_unknown"}

var AdversarialKeys = []string{"", "<<", "1", "true", "yes", "~", "0x1f", "Key", "KEY", "Label", "steps ", "name", "id", "identifier", "commands", "command", "null", "3.5", "a b", "é",
	"True", "TRUE", "False", "FALSE", "Null", "NULL", "Yes", "ON", "Off",
	// integer spellings at and beyond the int64 boundary (a render style writes some of them unquoted, as integer keys)
	"9223372036854775807", "9223372036854775808", "18446744073709551615", "0xFFFFFFFFFFFFFFFE", "18446744073709551616", "010", "0o17"}

// (no two spellings of one integer in the pool: written unquoted they would be one key twice in a mapping)

// ControlKeys: keys carrying control characters and non-printable runes (legal in quoted YAML / JSON escapes);
// only for properties whose domain is every byte string.
var ControlKeys = []string{"bel\a", "vt\vkey", "nul\x00", "del\x7f", "tag\U000e0001", "esc\x1b[0m"}

// KeyNoLongDigitRuns: DefaultKey without keys that carry a run of 19 or more digits (yaml.v3 emits Go maps holding
// such keys in an order that follows map iteration order, finding F22): for checks that compare YAML bytes across runs.
func KeyNoLongDigitRuns(r *core.Rand) string {
	for {
		k := DefaultKey(r)
		run, long := 0, false
		for _, ch := range k {
			if ch >= '0' && ch <= '9' {
				run++
				if run >= 19 {
					long = true
				}
			} else {
				run = 0
			}
		}
		if !long {
			return k
		}
	}
}

// KeyWithControls: DefaultKey, sometimes a key with a control character.
func KeyWithControls(r *core.Rand) string {
	if r.Intn(12) == 0 {
		return core.Pick(r, ControlKeys)
	}
	return DefaultKey(r)
}

func DefaultKey(r *core.Rand) string {
	if r.Intn(5) == 0 {
		return core.Pick(r, AdversarialKeys)
	}
	return core.Pick(r, extraKeys)
}

func (o *Opts) str() string { return o.Str(o.R) }

// Scalar for an untyped position (unknown fields, plugin configs).
func (o *Opts) Scalar() any {
	r := o.R
	switch r.Intn(12) {
	case 0:
		return nil
	case 1:
		return r.Bool()
	case 2:
		return r.Intn(2000) - 1000
	case 3:
		return float64(r.Intn(1000))/8 + 0.125
	case 4:
		if o.UntypedExotic {
			switch r.Intn(5) {
			case 0:
				return time.Date(2002, 8, 15, 0, 0, 0, 0, time.UTC)
			case 1:
				if r.Bool() {
					return uint64(18446744073709551557) // beyond int64: exact in both text forms
				}
				return 1 << 62
			case 2:
				return 1e21
			case 3:
				return float64(r.Intn(50)) // integral float
			case 4:
				return -0.000001
			}
		}
		return 7
	}
	return o.str()
}

// Value: arbitrary nested untyped value.
func (o *Opts) Value(depth int) any {
	r := o.R
	if depth <= 0 || r.Intn(3) != 0 {
		return o.Scalar()
	}
	if r.Bool() {
		n := r.Intn(4)
		out := make([]any, n)
		for i := range out {
			out[i] = o.Value(depth - 1)
		}
		return out
	}
	return o.Map(depth-1, 4)
}

// Map: ordered mapping with unknown keys.
func (o *Opts) Map(depth, maxN int) *ordered.MapSA {
	r := o.R
	m := ordered.NewMap[string, any](4)
	n := r.Intn(maxN + 1)
	for i := 0; i < n; i++ {
		m.Set(o.Key(r), o.Value(depth))
	}
	return m
}

// typed-string position: one of the four scalar kinds the unmarshaller documents
func (o *Opts) strish() any {
	r := o.R
	if o.TypeErrors > 0 && r.Intn(1000) < o.TypeErrors {
		o.hist("type-error-injected")
		return core.Pick(r, []any{[]any{"x"}, o.Map(0, 2), time.Date(2020, 1, 2, 3, 4, 5, 0, time.UTC)})
	}
	switch r.Intn(10) {
	case 0:
		return r.Intn(100)
	case 1:
		return r.Bool()
	case 2:
		if r.Intn(4) == 0 {
			// floats whose fmt.Sprint form uses an exponent (the documented string form of a float scalar)
			return core.Pick(r, []any{1e21, 1.0e+6, -1234567.5, 2.5e-7, 0.00001, 1e-7, 123456789.125})
		}
		return float64(r.Intn(100)) + 0.5
	}
	return o.str()
}

// typedKeys: names that are typed fields of some step kind; when the adversarial key pool hands one of
// them out as an "extra" key it gets a value of the field's documented scalar kinds.
var typedKeys = map[string]bool{"command": true, "commands": true, "name": true, "id": true, "identifier": true, "label": true, "key": true, "group": true}

func (o *Opts) addExtras(m *ordered.MapSA, n int) {
	r := o.R
	for i := 0; i < n; i++ {
		k := o.Key(r)
		if !m.Contains(k) {
			if typedKeys[k] {
				m.Set(k, o.strish())
			} else {
				m.Set(k, o.Value(2))
			}
		}
	}
	if o.MaxMapSize > 8 && r.Intn(12) == 0 {
		// many unknown keys at this very level (the struct's own inline map grows beyond Go's 8-entry bucket)
		for i := 0; i < 9+r.Intn(4); i++ {
			m.Set(fmt.Sprintf("zz_extra_%d", i), o.Scalar())
		}
		o.hist("many-extras-at-struct-level")
	}
	if o.MaxMapSize > 8 && r.Intn(6) == 0 {
		// a big unknown mapping: beyond Go's 8-entry bucket
		big := ordered.NewMap[string, any](16)
		for i := 0; i < 9+r.Intn(o.MaxMapSize-8); i++ {
			big.Set(fmt.Sprintf("%s%d", o.str(), i), o.Scalar())
		}
		m.Set("big_unknown", big)
		o.hist("big-map")
	}
}

func (o *Opts) Env(maxN int) *ordered.MapSA {
	r := o.R
	m := ordered.NewMap[string, any](4)
	for i := r.Intn(maxN + 1); i > 0; i-- {
		m.Set(core.Pick(r, []string{"FOO", "BAR", "PATH", "A", "B_1", "lower", "Mixed", "X", "node_version", "env", "e", "version", "vv", "nn", "ee", "env_", "command", "é"})+core.Pick(r, []string{"", "", "_2"}), o.strish())
	}
	if m.Len() > 0 && r.Intn(5) == 0 {
		// a variable set to the empty string is still set (it shadows, it is signed, it is written out)
		o.hist("env.empty-value")
		var keys []string
		m.Range(func(k string, _ any) error { keys = append(keys, k); return nil })
		m.Set(keys[r.Intn(len(keys))], "")
	}
	return m
}

func (o *Opts) Plugins() any {
	r := o.R
	src := func() string {
		if o.Str != nil && r.Intn(4) == 0 {
			// a source carrying whatever the string pool carries (references, tokens, odd characters)
			return core.Pick(r, []string{"ecr#", "docker#v", "org/custom#", ""}) + o.Str(r)
		}
		return core.Pick(r, []string{"docker#v5.0.0", "docker-compose#v4", "org/custom#main", "./local", "github.com/o/r-buildkite-plugin#1", "ssh://git@h/o/r.git", "ecr", "a/b", "x/y#a/../..", "docker#feature/./v1", "org/name#rel//1"})
	}
	cfg := func() any {
		switch r.Intn(7) {
		case 0:
			return nil
		case 1:
			return ordered.NewMap[string, any](0)
		case 2:
			// a config need not be a mapping: a bare string, a number, a list
			switch r.Intn(3) {
			case 0:
				o.hist("plugins.config-scalar-string")
				return o.str()
			case 1:
				o.hist("plugins.config-list")
				return []any{o.str(), o.Map(1, 2)}
			}
			o.hist("plugins.config-number")
			return r.Intn(100)
		}
		return o.Map(2, 4)
	}
	switch r.Intn(4) {
	case 0: // one mapping (legacy form)
		o.hist("plugins.mapping")
		m := ordered.NewMap[string, any](2)
		for i := 1 + r.Intn(3); i > 0; i-- {
			m.Set(src(), cfg())
		}
		return m
	case 1: // list of strings
		o.hist("plugins.strings")
		n := 1 + r.Intn(3)
		out := make([]any, n)
		for i := range out {
			out[i] = src()
		}
		return out
	default: // list of single-entry objects (and strings)
		o.hist("plugins.list")
		n := r.Intn(4)
		out := make([]any, n)
		for i := range out {
			if r.Intn(5) == 0 {
				out[i] = src()
				continue
			}
			if r.Intn(6) == 0 {
				// one list item naming two plugins (the forgotten-dash spelling): two plugins, in order
				o.hist("plugins.multi-entry-item")
				it := ordered.NewMap[string, any](2)
				it.Set(src(), cfg())
				it.Set(src()+"-second", cfg())
				out[i] = it
				continue
			}
			out[i] = ordered.MapFromItems(ordered.TupleSA{Key: src(), Value: cfg()})
		}
		return out
	}
}

func (o *Opts) strList(maxN int) []any {
	n := o.R.Intn(maxN + 1)
	out := make([]any, n)
	for i := range out {
		out[i] = o.strish()
	}
	return out
}

func (o *Opts) Matrix() any {
	r := o.R
	if r.Intn(3) == 0 {
		o.hist("matrix.simple")
		l := o.strList(3)
		if len(l) == 0 {
			l = []any{"only"}
		}
		return l
	}
	o.hist("matrix.full")
	m := ordered.NewMap[string, any](3)
	dims := []string{}
	if r.Intn(12) == 0 {
		// degenerate forms: no setup at all / explicit null setup
		o.hist("matrix.degenerate")
		switch r.Intn(3) {
		case 0:
			m.Set("setup", nil)
		case 1:
			m.Set("setup", ordered.NewMap[string, any](0)) // explicitly empty, not absent
		}
		if r.Intn(3) == 0 {
			o.hist("matrix.degenerate-empty-adjustments")
			m.Set("adjustments", []any{}) // present and empty, next to no / null / empty setup
		} else if r.Bool() {
			m.Set("adjustments", []any{ordered.MapFromItems(ordered.TupleSA{Key: "soft_fail", Value: true})})
		} else if r.Bool() {
			m.Set("adjustments", []any{ordered.MapFromItems(ordered.TupleSA{Key: "with", Value: ordered.NewMap[string, any](0)}, ordered.TupleSA{Key: "skip", Value: true})})
		}
		return m
	}
	if r.Intn(3) == 0 {
		m.Set("setup", o.strList(3)) // anonymous dimension under setup
		dims = []string{""}
	} else {
		s := ordered.NewMap[string, any](2)
		for i := 1 + r.Intn(3); i > 0; i-- {
			d := core.Pick(r, []string{"os", "arch", "ver", "go.version", "a-b", "", "arch.", "go..minor", ".hidden"})
			if r.Intn(10) == 0 {
				o.hist("matrix.null-dimension")
				s.Set(d, nil) // a dimension without values
				continue
			}
			s.Set(d, o.strList(3))
		}
		s.Range(func(k string, _ any) error { dims = append(dims, k); return nil })
		m.Set("setup", s)
	}
	if r.Intn(2) == 0 {
		var adjs []any
		for i := r.Intn(3); i > 0; i-- {
			a := ordered.NewMap[string, any](3)
			if r.Intn(10) == 0 {
				// adjustment without / with a null `with`
				if r.Bool() {
					a.Set("with", nil)
				}
			} else if len(dims) == 1 && dims[0] == "" {
				a.Set("with", core.Pick(r, []any{"extra", 5, true}))
			} else {
				w := ordered.NewMap[string, any](2)
				for _, d := range dims {
					w.Set(d, core.Pick(r, []any{o.str(), 3, false}))
				}
				a.Set("with", w)
			}
			switch r.Intn(5) {
			case 0:
				a.Set("skip", true)
			case 1:
				a.Set("skip", "reason "+o.str())
			case 2:
				a.Set("skip", false)
			}
			if r.Intn(3) == 0 {
				a.Set("soft_fail", core.Pick(r, []any{true, []any{ordered.MapFromItems(ordered.TupleSA{Key: "exit_status", Value: 1})},
					[]any{ordered.MapFromItems(ordered.TupleSA{Key: "signal_reason", Value: "agent_stop"}, ordered.TupleSA{Key: "exit_status", Value: 1})}}))
			}
			adjs = append(adjs, a)
		}
		if adjs == nil {
			adjs = []any{}
		}
		m.Set("adjustments", adjs)
	}
	if r.Intn(6) == 0 {
		m.Set(o.Key(r), o.Value(1))
	}
	return m
}

func (o *Opts) Cache() any {
	r := o.R
	switch r.Intn(5) {
	case 0:
		return core.Pick(r, []any{false, true})
	case 1:
		return "path/" + o.str()
	case 2:
		return o.strList(3)
	}
	m := ordered.NewMap[string, any](3)
	if r.Bool() {
		m.Set("paths", o.strList(3))
	}
	if r.Bool() {
		m.Set("name", o.strish())
	}
	if r.Bool() {
		m.Set("size", core.Pick(r, []any{"20g", 20}))
	}
	if r.Intn(3) == 0 {
		m.Set(o.Key(r), o.Value(1))
	}
	if r.Intn(5) == 0 {
		// the key the Disabled field answers to (its yaml tag has no name, so it is the lower-cased field name)
		o.hist("cache.disabled-key")
		m.Set("disabled", r.Intn(3) != 0)
	}
	return m
}

func (o *Opts) CommandStep() *ordered.MapSA {
	r := o.R
	m := ordered.NewMap[string, any](8)
	o.hist("step.command")
	if o.MaxMapSize > 8 && r.Intn(50) == 0 {
		// a very wide step: 64-80 unknown keys written BEFORE the kind keys, aliases and typed fields, so that every
		// named key sits beyond the 64th position of the mapping
		for i, n := 0, 64+r.Intn(17); i < n; i++ {
			m.Set(fmt.Sprintf("aa_wide_%02d", i), i)
		}
		o.hist("step.wide-named-keys-beyond-position-64")
	}
	// kind keys
	switch r.Intn(7) {
	case 0:
		m.Set("command", o.strish())
	case 1:
		m.Set("command", o.strList(3))
	case 2:
		m.Set("commands", o.strish())
	case 3:
		m.Set("commands", o.strList(3))
	case 4:
		m.Set("type", core.Pick(r, []string{"command", "script"}))
		if r.Bool() {
			m.Set("command", o.strish())
		}
	case 5:
		// plugins-only step
	default:
		m.Set("command", o.str())
	}
	if r.Intn(3) == 0 || !(m.Contains("command") || m.Contains("commands") || m.Contains("type")) {
		m.Set("plugins", o.Plugins())
	}
	// label / key with aliases
	switch r.Intn(5) {
	case 0:
		m.Set("label", o.strish())
	case 1:
		m.Set("name", o.strish())
		o.hist("alias.name")
	case 2:
		m.Set("label", o.str())
		m.Set("name", o.str())
		o.hist("alias.both-label-name")
	}
	switch r.Intn(6) {
	case 0:
		m.Set("key", o.strish())
	case 1:
		m.Set("id", o.str())
		o.hist("alias.id")
	case 2:
		m.Set("identifier", o.str())
		o.hist("alias.identifier")
	case 3:
		m.Set("identifier", o.str())
		m.Set("id", o.str())
		o.hist("alias.both-id-identifier")
	}
	if r.Intn(3) == 0 {
		m.Set("env", o.Env(4))
	}
	if r.Intn(4) == 0 {
		m.Set("matrix", o.Matrix())
	}
	if r.Intn(5) == 0 {
		m.Set("cache", o.Cache())
	}
	if r.Intn(25) == 0 {
		sig := ordered.MapFromItems(ordered.TupleSA{Key: "algorithm", Value: "EdDSA"},
			ordered.TupleSA{Key: "signed_fields", Value: []any{"command", "env", "matrix", "plugins", "repository_url"}},
			ordered.TupleSA{Key: "value", Value: "eyJhbGciOiJFZERTQSJ9..c2ln"})
		if r.Intn(3) == 0 {
			sig.Set(o.Key(r), o.Scalar()) // an unknown key inside the signature (finding F9)
			o.hist("signature.unknown-key")
		}
		m.Set("signature", sig)
	}
	o.addExtras(m, r.Intn(4))
	return shuffleKeys(r, m)
}

func shuffleKeys(r *core.Rand, m *ordered.MapSA) *ordered.MapSA {
	type kv struct {
		k string
		v any
	}
	var all []kv
	m.Range(func(k string, v any) error { all = append(all, kv{k, v}); return nil })
	for i := len(all) - 1; i > 0; i-- {
		j := r.Intn(i + 1)
		all[i], all[j] = all[j], all[i]
	}
	out := ordered.NewMap[string, any](len(all))
	for _, e := range all {
		out.Set(e.k, e.v)
	}
	return out
}

func (o *Opts) Step(depth int) any {
	r := o.R
	pick := r.Intn(14)
	if o.GroupBias > 0 && depth < o.MaxGroupDepth && r.Intn(100) < o.GroupBias {
		pick = 4
	}
	switch pick {
	case 0:
		o.hist("step.scalar")
		return core.Pick(r, []string{"wait", "waiter", "block", "input", "manual"})
	case 1:
		o.hist("step.wait")
		m := ordered.NewMap[string, any](2)
		m.Set(core.Pick(r, []string{"wait", "waiter"}), core.Pick(r, []any{nil, "~", o.str()}))
		if r.Bool() {
			m.Set("continue_on_failure", true)
		}
		o.addExtras(m, r.Intn(2))
		return m
	case 2:
		o.hist("step.input")
		m := ordered.NewMap[string, any](3)
		m.Set(core.Pick(r, []string{"block", "input", "manual"}), o.strish())
		if r.Bool() {
			m.Set("fields", []any{ordered.MapFromItems(ordered.TupleSA{Key: "text", Value: o.str()}, ordered.TupleSA{Key: "key", Value: "k"})})
		}
		o.addExtras(m, r.Intn(3))
		return m
	case 3:
		o.hist("step.trigger")
		m := ordered.NewMap[string, any](3)
		m.Set("trigger", o.str())
		if r.Bool() {
			m.Set("build", ordered.MapFromItems(ordered.TupleSA{Key: "message", Value: o.str()}, ordered.TupleSA{Key: "env", Value: o.Env(2)}))
		}
		o.addExtras(m, r.Intn(3))
		return m
	case 4:
		if depth < o.MaxGroupDepth {
			o.hist("step.group")
			m := ordered.NewMap[string, any](4)
			m.Set("group", core.Pick(r, []any{nil, o.str(), "~"}))
			if r.Intn(4) != 0 {
				m.Set("steps", o.Steps(depth+1, 3))
			}
			switch r.Intn(4) {
			case 0:
				m.Set("key", o.str())
			case 1:
				m.Set("label", o.str())
			}
			o.addExtras(m, r.Intn(3))
			return shuffleKeys(r, m)
		}
		return o.CommandStep()
	case 5:
		o.hist("step.typed")
		m := ordered.NewMap[string, any](3)
		m.Set("type", core.Pick(r, []string{"wait", "waiter", "block", "input", "manual", "trigger", "group"}))
		if o.TypeErrors > 0 && r.Intn(1000) < o.TypeErrors {
			// a type that is not a string: a hard error of the whole parse, never a usable result with a hole
			o.hist("type-error-injected.non-string-type")
			m.Set("type", core.Pick(r, []any{123, true, 1.5, nil, []any{"wait"}, o.Map(0, 1)}))
		}
		o.addExtras(m, r.Intn(3))
		return m
	case 6:
		o.hist("step.unknown")
		if r.Intn(4) == 0 {
			o.hist("step.unknown-scalar")
			return core.Pick(r, UnknownScalarSteps)
		}
		if r.Intn(3) == 0 {
			m := ordered.NewMap[string, any](2)
			m.Set("type", core.Pick(r, []string{"deploy", "future", ""}))
			o.addExtras(m, 1+r.Intn(2))
			return m
		}
		m := o.Map(2, 3)
		for _, k := range []string{"command", "commands", "plugins", "wait", "waiter", "block", "input", "manual", "trigger", "group", "type"} {
			m.Delete(k)
		}
		return m
	}
	return o.CommandStep()
}

func (o *Opts) Steps(depth, maxN int) []any {
	n := o.R.Intn(maxN + 1)
	out := make([]any, n)
	for i := range out {
		out[i] = o.Step(depth)
	}
	return out
}

// Pipeline: a whole document (mapping form or bare step list).
func (o *Opts) Pipeline() any {
	r := o.R
	if r.Intn(6) == 0 {
		o.hist("top.list")
		return o.Steps(0, 5)
	}
	o.hist("top.map")
	m := ordered.NewMap[string, any](4)
	if r.Intn(3) != 0 {
		m.Set("env", o.Env(5))
	}
	if o.ManySteps > 0 && r.Intn(o.ManySteps) == 0 {
		// a long pipeline (size-triggered code paths): 48-70 top-level steps
		o.hist("top.many-steps")
		n := 48 + r.Intn(23)
		ss := make([]any, n)
		for i := range ss {
			ss[i] = o.Step(0)
		}
		m.Set("steps", ss)
	} else if o.ManyUnknown > 0 && r.Intn(o.ManyUnknown) == 0 {
		// more fallbacks in one sequence than any per-sequence limit one might think of
		o.hist("top.many-unknown-steps")
		ss := o.Steps(0, 4)
		for i := 21 + r.Intn(25); i > 0; i-- {
			if r.Intn(3) == 0 {
				ss = append(ss, ordered.MapFromItems(ordered.TupleSA{Key: "zz_no_kind_key", Value: i}))
			} else {
				ss = append(ss, core.Pick(r, UnknownScalarSteps))
			}
			if r.Intn(6) == 0 {
				ss = append(ss, o.Step(1))
			}
		}
		m.Set("steps", ss)
	} else if r.Intn(12) != 0 {
		m.Set("steps", o.Steps(0, 6))
	}
	o.addExtras(m, r.Intn(3))
	if o.DeepNesting > 0 && r.Intn(o.DeepNesting) == 0 {
		o.hist("top.deep-nesting")
		depth := 28 + r.Intn(53)
		if ss, ok := m.Get("steps"); ok {
			if l, ok := ss.([]any); ok && len(l) > 0 {
				if sm, ok := l[0].(*ordered.MapSA); ok && r.Bool() {
					sm.Set("zz_deep", DeepChain(depth)) // inside a step's unknown field
					return shuffleKeys(r, m)
				}
			}
		}
		m.Set("zz_deep", DeepChain(depth))
	}
	return shuffleKeys(r, m)
}
