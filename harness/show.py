import json,sys
r=json.load(open(sys.argv[1]))
print({k:r.get(k) for k in ['evaluations','distinct_nontrivial','model_requests','oracle_checks','wall_s','notes']})
print('mismatches',len(r['mismatches']))
for m in r['mismatches'][:int(sys.argv[2]) if len(sys.argv)>2 else 4]:
    print(' REQ',m['request'][:200]); print('   impl ',m['impl'][:300]); print('   model',m['model'][:300]); print('   ctx',m.get('context',[])[-6:])
print('oracle failures',len(r['oracle_failures']), 'known', r.get('known_hits'))
for f in r['oracle_failures'][:int(sys.argv[2]) if len(sys.argv)>2 else 6]:
    print(' ',f['what'],'| input',str(f['input'])[-300:],'| got',str(f.get('got'))[:200],'| want',str(f.get('want'))[:200])
print(r['histogram'])
