import json,sys
r=json.load(open(sys.argv[1]))
n=int(sys.argv[2]) if len(sys.argv)>2 else 4
print({k:r.get(k) for k in ['evaluations','distinct_nontrivial','model_requests','oracle_checks','wall_s','notes']})
print('mismatches',len(r['mismatches']))
def fd(a,b):
    i=0
    while i<len(a) and i<len(b) and a[i]==b[i]: i+=1
    return i
for m in r['mismatches'][:n]:
    a,b=m['impl'],m['model']; i=fd(a,b)
    print(' REQ',m['request'][:160]); print('   diff at',i); print('   impl  …'+a[max(0,i-90):i+110]); print('   model …'+b[max(0,i-90):i+110])
print('oracle failures',len(r['oracle_failures']), 'known', r.get('known_hits'))
seen={}
for f in r['oracle_failures']:
    if f.get('known'): continue
    seen.setdefault(f['what'][:70],[]).append(f)
for w,fs in seen.items():
    f=fs[0]
    print(' ',len(fs),'x',f['what'],'| input',str(f['input'])[-260:],'| got',str(f.get('got'))[:220],'| want',str(f.get('want'))[:120])
print({k:v for k,v in r['histogram'].items() if not k.startswith(('alias.','step.','plugins.','matrix.','top.'))})
