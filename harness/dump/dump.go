// Package dump renders pipeline values in the structural convention of
// lean/GoPipeline/Model/Pipeline.lean (`Pipeline.dump` etc.), as a VL tree.
package dump

import (
	"fmt"
	"time"

	pipeline "github.com/buildkite/go-pipeline"
	"github.com/buildkite/go-pipeline/ordered"

	"verifharness/vl"
)

func umapV(m map[string]any) any {
	if m == nil {
		return nil
	}
	out := map[string]any{}
	for k, v := range m {
		out[k] = Any(v)
	}
	return out
}

// All containers are copied: a dump is a snapshot, later in-place mutation must not show through.
func umapS(m map[string]string) any {
	if m == nil {
		return nil
	}
	out := make(map[string]string, len(m))
	for k, v := range m {
		out[k] = v
	}
	return out
}

func strs(l []string) any {
	if l == nil {
		return nil
	}
	return append([]string{}, l...)
}

// Any renders an `any` (decoded YAML, or its ToMapRecursive image): ordered maps stay ordered,
// Go maps become umaps, everything else is itself. Unsupported dynamic types are rendered as a
// string naming the type so that they show up in a comparison instead of panicking.
func Any(v any) any {
	switch t := v.(type) {
	case nil, bool, int, int64, uint64, float64, string:
		return t
	case []any:
		out := make([]any, len(t))
		for i, e := range t {
			out[i] = Any(e)
		}
		return out
	case []string:
		out := make([]any, len(t))
		for i, e := range t {
			out[i] = e
		}
		return out
	case map[string]any:
		return umapV(t)
	case map[string]string:
		return umapS(t)
	case *ordered.MapSA:
		if t == nil {
			return nil
		}
		o := vl.OMap{}
		t.Range(func(k string, x any) error { o = append(o, vl.KV{K: k, V: Any(x)}); return nil })
		return o
	case *ordered.MapSS:
		if t == nil {
			return nil
		}
		o := vl.OMap{}
		t.Range(func(k string, x string) error { o = append(o, vl.KV{K: k, V: x}); return nil })
		return o
	case time.Time:
		return t
	default:
		return fmt.Sprintf("<go:%T>", v)
	}
}

func Plugin(p *pipeline.Plugin) any {
	if p == nil {
		return nil
	}
	return []any{p.Source, Any(p.Config)}
}

func Adjustment(a *pipeline.MatrixAdjustment) any {
	if a == nil {
		return nil
	}
	var w any
	if a.With != nil {
		w = umapS(map[string]string(a.With))
	}
	return vl.OMap{{K: "with", V: w}, {K: "skip", V: Any(a.Skip)}, {K: "rem", V: umapV(a.RemainingFields)}}
}

func Matrix(m *pipeline.Matrix) any {
	if m == nil {
		return nil
	}
	var setup any
	if m.Setup != nil {
		s := map[string]any{}
		for k, v := range m.Setup {
			s[k] = strs(v)
		}
		setup = s
	}
	var adjs any
	if m.Adjustments != nil {
		l := make([]any, len(m.Adjustments))
		for i, a := range m.Adjustments {
			l[i] = Adjustment(a)
		}
		adjs = l
	}
	return vl.OMap{{K: "setup", V: setup}, {K: "adjustments", V: adjs}, {K: "rem", V: umapV(m.RemainingFields)}}
}

func Cache(c *pipeline.Cache) any {
	if c == nil {
		return nil
	}
	return vl.OMap{{K: "disabled", V: c.Disabled}, {K: "name", V: c.Name}, {K: "paths", V: strs(c.Paths)}, {K: "size", V: c.Size}, {K: "rem", V: umapV(c.RemainingFields)}}
}

func Signature(s *pipeline.Signature) any {
	if s == nil {
		return nil
	}
	return []any{s.Algorithm, strs(s.SignedFields), s.Value}
}

func Command(c *pipeline.CommandStep) any {
	var plugins any
	if c.Plugins != nil {
		l := make([]any, len(c.Plugins))
		for i, p := range c.Plugins {
			l[i] = Plugin(p)
		}
		plugins = l
	}
	return vl.OMap{
		{K: "key", V: c.Key}, {K: "label", V: c.Label}, {K: "command", V: c.Command},
		{K: "plugins", V: plugins}, {K: "env", V: umapS(c.Env)}, {K: "signature", V: Signature(c.Signature)},
		{K: "matrix", V: Matrix(c.Matrix)}, {K: "cache", V: Cache(c.Cache)}, {K: "rem", V: umapV(c.RemainingFields)},
	}
}

func Steps(ss pipeline.Steps) any {
	if ss == nil {
		return nil
	}
	l := make([]any, len(ss))
	for i, s := range ss {
		l[i] = Step(s)
	}
	return l
}

func Step(s pipeline.Step) any {
	switch t := s.(type) {
	case *pipeline.CommandStep:
		if t == nil {
			return []any{"nil-command"}
		}
		return []any{"command", Command(t)}
	case *pipeline.WaitStep:
		return []any{"wait", t.Scalar, umapV(t.Contents)}
	case *pipeline.InputStep:
		return []any{"input", t.Scalar, umapV(t.Contents)}
	case *pipeline.TriggerStep:
		return []any{"trigger", umapV(t.Contents)}
	case *pipeline.GroupStep:
		var g any
		if t.Group != nil {
			g = *t.Group
		}
		return []any{"group", t.Key, g, Steps(t.Steps), umapV(t.RemainingFields)}
	case *pipeline.UnknownStep:
		return []any{"unknown", Any(t.Contents)}
	case nil:
		return []any{"nil-step"}
	}
	return []any{fmt.Sprintf("<go:%T>", s)}
}

func Pipeline(p *pipeline.Pipeline) any {
	var env any
	if p.Env != nil {
		env = Any(p.Env)
	}
	return vl.OMap{{K: "steps", V: Steps(p.Steps)}, {K: "env", V: env}, {K: "rem", V: umapV(p.RemainingFields)}}
}
