// Package core: PRNG, model-driver sessions (request file -> Lean driver ->
// answer diff), and the result file consumed by bin/check.
package core

import (
	"bufio"
	"encoding/json"
	"fmt"
	"os"
	"os/exec"
	"path/filepath"
	"sort"
	"strings"
	"sync"
	"time"
)

// ---------- PRNG (splitmix64): every random choice derives from one seed ----------

type Rand struct{ s uint64 }

func NewRand(seed uint64) *Rand { return &Rand{s: seed*0x9E3779B97F4A7C15 + 0x1234567} }

func (r *Rand) U64() uint64 {
	r.s += 0x9E3779B97F4A7C15
	z := r.s
	z = (z ^ (z >> 30)) * 0xBF58476D1CE4E5B9
	z = (z ^ (z >> 27)) * 0x94D049BB133111EB
	return z ^ (z >> 31)
}
func (r *Rand) Intn(n int) int {
	if n <= 0 {
		return 0
	}
	return int(r.U64() % uint64(n))
}
func (r *Rand) Bool() bool           { return r.U64()&1 == 1 }
func (r *Rand) Chance(p, q int) bool { return r.Intn(q) < p }
func (r *Rand) Fork() *Rand          { return NewRand(r.U64()) }
func Pick[T any](r *Rand, xs []T) T  { return xs[r.Intn(len(xs))] }

// ---------- Sessions ----------

// A Session is one stream of requests to the Lean driver in a given mode,
// with the implementation's answer recorded next to each request.
type Session struct {
	Mode   string
	dir    string
	reqF   *os.File
	reqW   *bufio.Writer
	expF   *os.File
	expW   *bufio.Writer
	N      int
	closed bool
}

type Mismatch struct {
	Index   int      `json:"index"`
	Request string   `json:"request"`
	Impl    string   `json:"impl"`
	Model   string   `json:"model"`
	Context []string `json:"context,omitempty"` // preceding requests of the same session (tail)
}

var scratchRoot = func() string {
	d := os.Getenv("VERIF_SCRATCH")
	if d == "" {
		d = "/var/tmp"
	}
	return d
}()

var (
	sessionDirsMu sync.Mutex
	sessionDirs   []string
)

// CleanupSessions removes the scratch directory of every session created by this process (a session that was
// never run — single-document mode, an early return — would otherwise leave its directory behind).
func CleanupSessions() {
	sessionDirsMu.Lock()
	defer sessionDirsMu.Unlock()
	for _, d := range sessionDirs {
		os.RemoveAll(d)
	}
	sessionDirs = nil
}

func NewSession(mode string) *Session {
	dir, err := os.MkdirTemp(scratchRoot, "vf-sess-")
	if err != nil {
		panic(err)
	}
	s := &Session{Mode: mode, dir: dir}
	sessionDirsMu.Lock()
	sessionDirs = append(sessionDirs, dir)
	sessionDirsMu.Unlock()
	s.reqF, _ = os.Create(filepath.Join(dir, "req"))
	s.expF, _ = os.Create(filepath.Join(dir, "exp"))
	s.reqW = bufio.NewWriterSize(s.reqF, 1<<20)
	s.expW = bufio.NewWriterSize(s.expF, 1<<20)
	return s
}

// Add records a request (already a single line, escaped) and the implementation's answer.
func (s *Session) Add(req, impl string) {
	if strings.ContainsAny(req, "\n\r") || strings.ContainsAny(impl, "\n\r") {
		panic("core.Session.Add: unescaped newline")
	}
	s.reqW.WriteString(req)
	s.reqW.WriteByte('\n')
	s.expW.WriteString(impl)
	s.expW.WriteByte('\n')
	s.N++
}

// Run pipes the requests through the driver and returns the disagreements
// (at most maxMismatch), then removes the scratch directory.
func (s *Session) Run(driver string, maxMismatch int, contextLines int) ([]Mismatch, error) {
	defer os.RemoveAll(s.dir)
	s.reqW.Flush()
	s.expW.Flush()
	s.reqF.Close()
	s.expF.Close()
	in, err := os.Open(filepath.Join(s.dir, "req"))
	if err != nil {
		return nil, err
	}
	defer in.Close()
	outPath := filepath.Join(s.dir, "out")
	out, err := os.Create(outPath)
	if err != nil {
		return nil, err
	}
	cmd := exec.Command(driver, s.Mode)
	cmd.Stdin = in
	cmd.Stdout = out
	var stderr strings.Builder
	cmd.Stderr = &stderr
	runErr := cmd.Run()
	out.Close()

	reqs, _ := os.Open(filepath.Join(s.dir, "req"))
	exps, _ := os.Open(filepath.Join(s.dir, "exp"))
	outs, _ := os.Open(outPath)
	defer reqs.Close()
	defer exps.Close()
	defer outs.Close()
	rs, es, os_ := bigScanner(reqs), bigScanner(exps), bigScanner(outs)
	var mm []Mismatch
	var ctx []string
	i := 0
	for rs.Scan() {
		es.Scan()
		got := "<driver produced no answer>"
		if os_.Scan() {
			got = os_.Text()
		}
		if got != es.Text() {
			if len(mm) < maxMismatch {
				mm = append(mm, Mismatch{Index: i, Request: rs.Text(), Impl: es.Text(), Model: got, Context: append([]string(nil), ctx...)})
			}
		}
		if contextLines > 0 {
			ctx = append(ctx, rs.Text())
			if len(ctx) > contextLines {
				ctx = ctx[1:]
			}
		}
		i++
	}
	if runErr != nil && len(mm) == 0 {
		return nil, fmt.Errorf("driver %s failed: %v: %s", s.Mode, runErr, stderr.String())
	}
	return mm, nil
}

func bigScanner(f *os.File) *bufio.Scanner {
	sc := bufio.NewScanner(f)
	sc.Buffer(make([]byte, 1<<20), 1<<28)
	return sc
}

// RunSessions runs sessions concurrently (one driver process each).
func RunSessions(driver string, ss []*Session, maxMismatch, ctx int) ([]Mismatch, int, error) {
	var mu sync.Mutex
	var all []Mismatch
	total := 0
	var firstErr error
	sem := make(chan struct{}, 16)
	var wg sync.WaitGroup
	for _, s := range ss {
		wg.Add(1)
		sem <- struct{}{}
		go func(s *Session) {
			defer wg.Done()
			defer func() { <-sem }()
			mm, err := s.Run(driver, maxMismatch, ctx)
			mu.Lock()
			defer mu.Unlock()
			total += s.N
			if err != nil && firstErr == nil {
				firstErr = err
			}
			if len(all) < maxMismatch {
				all = append(all, mm...)
			}
		}(s)
	}
	wg.Wait()
	return all, total, firstErr
}

// ---------- Result file ----------

type OracleFailure struct {
	What  string `json:"what"`
	Input any    `json:"input"`
	Got   string `json:"got,omitempty"`
	Want  string `json:"want,omitempty"`
	Known string `json:"known,omitempty"` // id of a matching known finding, if any
	// Shrunk: a smaller input on which the same oracle still fails (delta debugging over the document tree)
	Shrunk any `json:"shrunk,omitempty"`
}

type Result struct {
	Property        string          `json:"property"`
	Tier            string          `json:"tier"`
	Seed            uint64          `json:"seed"`
	Evaluations     int             `json:"evaluations"`
	DistinctNontriv int             `json:"distinct_nontrivial"`
	Rule            string          `json:"rule"`
	Exhaustive      bool            `json:"exhaustive"`
	ModelRequests   int             `json:"model_requests"`
	Samples         []any           `json:"samples"`
	Histogram       map[string]int  `json:"histogram"`
	Mismatches      []Mismatch      `json:"mismatches"`
	OracleFailures  []OracleFailure `json:"oracle_failures"`
	OracleChecks    int             `json:"oracle_checks"`
	KnownHits       map[string]int  `json:"known_hits,omitempty"`
	Notes           []string        `json:"notes,omitempty"`
	WallS           float64         `json:"wall_s"`
	start           time.Time
	mu              sync.Mutex
	distinct        map[string]struct{}
	unlisted        int
}

func NewResult(prop, tier string, seed uint64) *Result {
	return &Result{Property: prop, Tier: tier, Seed: seed, Histogram: map[string]int{}, KnownHits: map[string]int{},
		start: time.Now(), distinct: map[string]struct{}{}}
}

func (r *Result) Hist(k string)         { r.mu.Lock(); r.Histogram[k]++; r.mu.Unlock() }
func (r *Result) HistN(k string, n int) { r.mu.Lock(); r.Histogram[k] += n; r.mu.Unlock() }

// Case counts one evaluated case; key identifies it for distinctness, nontrivial per the property's rule.
func (r *Result) Case(key string, nontrivial bool) {
	r.mu.Lock()
	r.Evaluations++
	if nontrivial {
		if len(r.distinct) < 5_000_000 {
			r.distinct[key] = struct{}{}
		}
	}
	r.mu.Unlock()
}

func (r *Result) Sample(v any) {
	r.mu.Lock()
	if len(r.Samples) < 8 {
		r.Samples = append(r.Samples, v)
	}
	r.mu.Unlock()
}

func (r *Result) Fail(f OracleFailure) {
	r.mu.Lock()
	defer r.mu.Unlock()
	if f.Known != "" {
		// failures explained by a listed finding: counted, a few kept as samples
		r.KnownHits[f.Known]++
		if r.KnownHits[f.Known] <= 3 {
			r.OracleFailures = append(r.OracleFailures, f)
		}
		return
	}
	r.unlisted++
	if r.unlisted <= 50 {
		r.OracleFailures = append(r.OracleFailures, f)
	}
}

func (r *Result) Write(path string) error {
	r.DistinctNontriv = len(r.distinct)
	r.WallS = time.Since(r.start).Seconds()
	if r.Mismatches == nil {
		r.Mismatches = []Mismatch{}
	}
	if r.OracleFailures == nil {
		r.OracleFailures = []OracleFailure{}
	}
	if r.Samples == nil {
		r.Samples = []any{}
	}
	// stable histogram order is given by json's key sorting
	b, err := json.MarshalIndent(r, "", " ")
	if err != nil {
		return err
	}
	return os.WriteFile(path, b, 0o644)
}

// SortedKeys helper.
func SortedKeys[V any](m map[string]V) []string {
	ks := make([]string, 0, len(m))
	for k := range m {
		ks = append(ks, k)
	}
	sort.Strings(ks)
	return ks
}

// Current records the case about to be run (when VERIF_CURRENT_CASE names a file), so that a case which
// kills the process (fatal stack overflow, runtime throw) can still be reported as the failing input.
func Current(v any) {
	path := os.Getenv("VERIF_CURRENT_CASE")
	if path == "" {
		return
	}
	b, err := json.Marshal(v)
	if err != nil {
		b = []byte(fmt.Sprintf("%q", fmt.Sprint(v)))
	}
	_ = os.WriteFile(path, b, 0o644)
}
